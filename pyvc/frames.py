"""P-frame: conservative syntactic discharge of reads / modifies / object-invariant obligations.

All analyses work on the ASTs of the classes imported from VERIF_REPO (re-parsed every run) and are
sound-but-incomplete: what they cannot classify is reported as a failed obligation of the frame
contract (with the offending source location), never silently accepted.

Obligations offered
  input_copied(cls, method, param)   - the parameter is rebound to deepcopy(param) (directly or by a
        repository function that does so first) before any use other than calls proved pure
  object_invariant(cls, entry)       - every instance/class attribute the entry method (transitively,
        through self.method() calls) reads is either plain construction-time configuration, or is
        assigned in the entry method before the first read
  no_hash_order(module or class)     - set-valued names/attributes are only used for membership, add /
        discard / update, len(), truthiness, pop() or sorted(); never iterated, returned or passed on
  no_global_mutation(module)         - no function stores into / calls a mutator on a module-level
        or class-level mutable container
  no_mutable_defaults(module)        - no parameter default is a mutable literal
"""
import ast
import inspect
import os
import sys
import textwrap

MUTATORS = {"append", "extend", "insert", "remove", "pop", "clear", "sort", "reverse", "update", "setdefault",
            "add", "discard", "popitem", "appendleft", "extendleft", "__setitem__", "__delitem__"}
SET_OK_METHODS = {"add", "discard", "remove", "update", "pop", "clear", "copy", "issubset", "issuperset"}


def class_ast(cls):
    src = textwrap.dedent(inspect.getsource(cls))
    return ast.parse(src).body[0]


def module_ast_of(mod):
    with open(mod.__file__, encoding="utf-8") as f:
        return ast.parse(f.read(), mod.__file__)


def methods_of(cls):
    """name -> (FunctionDef, defining class) following the MRO, repository classes only"""
    out = {}
    for klass in reversed(cls.__mro__):
        if klass is object or not hasattr(sys.modules.get(klass.__module__), "__file__"):
            continue
        if not klass.__module__.startswith("pycaption"):
            continue
        try:
            node = class_ast(klass)
        except (OSError, TypeError):
            continue
        for st in node.body:
            if isinstance(st, ast.FunctionDef):
                out[st.name] = (st, klass)
    return out


def class_level_attrs(cls):
    out = {}
    for klass in reversed(cls.__mro__):
        if not klass.__module__.startswith("pycaption"):
            continue
        for st in class_ast(klass).body:
            if isinstance(st, ast.Assign):
                for t in st.targets:
                    if isinstance(t, ast.Name):
                        out[t.id] = st.value
    return out


def self_name(fn):
    return fn.args.args[0].arg if fn.args.args else None


CALL_NODES = {}


def _constant_bindings(call, fn_node):
    """parameters of the callee that this call site fixes to a constant (literal argument, or the literal default
    of a parameter the call does not pass): {name: value}"""
    if call is None or fn_node is None:
        return {}
    params = [a.arg for a in fn_node.args.args][1:]          # without self
    defaults = fn_node.args.defaults
    dmap = {p_: d for p_, d in zip(params[len(params) - len(defaults):], defaults)} if defaults else {}
    out = {}
    passed = set()
    if any(isinstance(a, ast.Starred) for a in call.args) or any(k.arg is None for k in call.keywords):
        return {}
    for p_, a in zip(params, call.args):
        passed.add(p_)
        if isinstance(a, ast.Constant):
            out[p_] = a.value
    for k in call.keywords:
        passed.add(k.arg)
        if isinstance(k.value, ast.Constant):
            out[k.arg] = k.value.value
    for p_, d in dmap.items():
        if p_ not in passed and isinstance(d, ast.Constant):
            out[p_] = d.value
    return out


class AttrUse(ast.NodeVisitor):
    """direct reads / writes of self.<attr> and self.<method>() calls in one function, in order"""

    def __init__(self, selfn):
        self.selfn = selfn
        self.events = []        # (kind, name, lineno)  kind in read / write / cwrite / call / ccall / mutate
        self.cond = 0           # depth of enclosing conditional constructs (if / while / try / and-or / ifexp)

    def _cond(self, nodes):
        self.cond += 1
        for n in nodes:
            self.visit(n)
        self.cond -= 1

    def visit_If(self, node):
        self.visit(node.test)
        self._cond(node.body)
        self._cond(node.orelse)

    def visit_While(self, node):
        self._cond([node.test] + node.body + node.orelse)

    def visit_Try(self, node):
        self._cond(node.body + [h for h in node.handlers] + node.orelse + node.finalbody)

    def visit_IfExp(self, node):
        self.visit(node.test)
        self._cond([node.body, node.orelse])

    def visit_BoolOp(self, node):
        self.visit(node.values[0])
        self._cond(node.values[1:])

    def _w(self):
        return "write" if self.cond == 0 else "cwrite"

    def visit_Attribute(self, node):
        if isinstance(node.value, ast.Name) and node.value.id == self.selfn:
            if isinstance(node.ctx, ast.Store):
                self.events.append((self._w(), node.attr, node.lineno))
            else:
                self.events.append(("read", node.attr, node.lineno))
        else:
            self.generic_visit(node)

    def visit_Assign(self, node):
        self.visit(node.value)
        for t in node.targets:
            self._target(t)

    def visit_AugAssign(self, node):
        self.visit(node.value)
        if isinstance(node.target, ast.Attribute) and isinstance(node.target.value, ast.Name) \
                and node.target.value.id == self.selfn:
            self.events.append(("read", node.target.attr, node.lineno))
            self.events.append((self._w(), node.target.attr, node.lineno))
        else:
            self._target(node.target)

    def _target(self, t):
        if isinstance(t, ast.Attribute) and isinstance(t.value, ast.Name) and t.value.id == self.selfn:
            self.events.append((self._w(), t.attr, t.lineno))
        elif isinstance(t, ast.Subscript):
            # self.x[...] = v   mutates x
            base = t.value
            if isinstance(base, ast.Attribute) and isinstance(base.value, ast.Name) and base.value.id == self.selfn:
                self.events.append(("read", base.attr, t.lineno))
                self.events.append(("mutate", base.attr, t.lineno))
            else:
                self.visit(t)
        elif isinstance(t, (ast.Tuple, ast.List)):
            for e in t.elts:
                self._target(e)
        else:
            self.visit(t)

    def visit_Call(self, node):
        f = node.func
        if isinstance(f, ast.Attribute) and isinstance(f.value, ast.Name) and f.value.id == self.selfn:
            for a in node.args:
                self.visit(a)
            for k in node.keywords:
                self.visit(k.value)
            self.events.append(("call" if self.cond == 0 else "ccall", f.attr, node.lineno))
            CALL_NODES[(id(self), len(self.events) - 1)] = node
            self.call_nodes = getattr(self, "call_nodes", {})
            self.call_nodes[len(self.events) - 1] = node
            return
        if isinstance(f, ast.Attribute) and f.attr in MUTATORS:
            base = f.value
            if isinstance(base, ast.Attribute) and isinstance(base.value, ast.Name) and base.value.id == self.selfn:
                self.events.append(("read", base.attr, node.lineno))
                self.events.append(("mutate", base.attr, node.lineno))
                for a in node.args:
                    self.visit(a)
                return
        self.generic_visit(node)

    def visit_FunctionDef(self, node):
        pass      # nested functions are analysed as part of the enclosing function body
    def visit_Lambda(self, node):
        self.generic_visit(node)


def events_of(fn):
    v = AttrUse(self_name(fn))
    for st in fn.body:
        v.visit(st)
    return v.events


def plain_config(value):
    """is the initial value a plain immutable configuration value (constant, parameter, attribute of a
    parameter, simple arithmetic on those)?"""
    if isinstance(value, ast.Constant):
        return True
    if isinstance(value, ast.Name):
        return True
    if isinstance(value, (ast.BinOp,)):
        return plain_config(value.left) and plain_config(value.right)
    if isinstance(value, ast.Call):
        # kwargs.pop('x', default) / kw.get('x', default)
        f = value.func
        if isinstance(f, ast.Attribute) and f.attr in ("pop", "get") and isinstance(f.value, ast.Name):
            return all(plain_config(a) for a in value.args)
        return False
    if isinstance(value, ast.Tuple):
        return all(plain_config(e) for e in value.elts)
    return False


def object_invariant(cls, entry, g, label=None):
    """RInv / WInv: see module docstring."""
    label = label or f"{cls.__name__}.{entry}"
    meths = methods_of(cls)
    if entry not in meths:
        g.undecided(f"{label}/object_invariant", f"no method {entry}")
        return
    ev = {name: events_of(fn) for name, (fn, _) in meths.items()}
    # attributes written outside __init__ (anywhere in the class), and __init__ initial values
    written_outside = set()
    for name, events in ev.items():
        if name == "__init__":
            continue
        for kind, attr, _ in events:
            if kind in ("write", "cwrite", "mutate"):
                written_outside.add(attr)
    init_values = {}
    if "__init__" in meths:
        for st in ast.walk(meths["__init__"][0]):
            if isinstance(st, ast.Assign):
                for t in st.targets:
                    if isinstance(t, ast.Attribute) and isinstance(t.value, ast.Name):
                        init_values[t.attr] = st.value
    for k, v in class_level_attrs(cls).items():
        init_values.setdefault(k, v)

    def is_config(attr):
        if attr in meths:
            return True
        if attr in written_outside:
            return False
        if attr in init_values:
            return plain_config(init_values[attr])
        return True          # inherited / external attribute never written here (e.g. base class config)

    # transitive reads-before-write summary per method: the set of attrs a call may read before
    # having assigned them itself
    memo = {}

    def expr_events(node):
        v = AttrUse(self_name(meths[cur_method[0]][0]))
        v.visit(node)
        calls = getattr(v, "call_nodes", {})
        return [(k_, a_, calls.get(idx)) if k_ in ("call", "ccall") else (k_, a_, l_) for idx, (k_, a_, l_) in enumerate(v.events)]

    cur_method = [entry]

    consts = [{}]          # parameters of the method being summarised that its call site fixes to a constant

    def known_test(test):
        """True / False when the `if` test is decided by a parameter the call site passes as a literal, else None"""
        if isinstance(test, ast.Name) and test.id in consts[0]:
            return bool(consts[0][test.id])
        if isinstance(test, ast.UnaryOp) and isinstance(test.op, ast.Not):
            v = known_test(test.operand)
            return None if v is None else not v
        return None

    def flow(stmts, assigned, stack):
        """(attrs possibly read before assignment, attrs definitely assigned afterwards)"""
        need = set()

        def use(events, assigned):
            for kind, attr, _ in events:
                if kind in ("write", "cwrite"):
                    if kind == "write":
                        assigned.add(attr)
                elif kind in ("read", "mutate"):
                    if attr not in assigned:
                        need.add(attr)
                elif kind in ("call", "ccall"):
                    callee = meths.get(attr)
                    n2, a2 = summary(attr, stack, _constant_bindings(_ if isinstance(_, ast.Call) else None, callee[0] if callee else None))
                    need.update(a for a in n2 if a not in assigned)
                    if kind == "call":
                        assigned |= a2
        for st in stmts:
            if isinstance(st, ast.If) and known_test(st.test) is not None:
                # (the branch is fixed by a literal argument of the call being summarised)
                n1, a1 = flow(st.body if known_test(st.test) else st.orelse, assigned, stack)
                need |= n1
                assigned = a1
            elif isinstance(st, ast.If):
                use(expr_events(st.test), assigned)
                n1, a1 = flow(st.body, set(assigned), stack)
                n2, a2 = flow(st.orelse, set(assigned), stack)
                need |= n1 | n2
                assigned = a1 & a2
            elif isinstance(st, (ast.For, ast.While)):
                use(expr_events(st.iter if isinstance(st, ast.For) else st.test), assigned)
                n1, _ = flow(st.body, set(assigned), stack)
                n2, _ = flow(st.orelse, set(assigned), stack)
                need |= n1 | n2
            elif isinstance(st, ast.Try):
                n1, a1 = flow(st.body, set(assigned), stack)
                need |= n1
                after = a1
                for h in st.handlers:
                    nh, ah = flow(h.body, set(assigned), stack)
                    need |= nh
                    after = after & ah
                n3, a3 = flow(st.orelse, set(a1), stack)
                need |= n3
                n4, a4 = flow(st.finalbody, set(assigned), stack)
                need |= n4
                assigned = (after & a3 if st.orelse else after) | a4
            elif isinstance(st, ast.With):
                for it in st.items:
                    use(expr_events(it.context_expr), assigned)
                n1, a1 = flow(st.body, assigned, stack)
                need |= n1
                assigned = a1
            elif isinstance(st, (ast.FunctionDef, ast.ClassDef)):
                continue
            else:
                use(expr_events(st), assigned)
        return need, assigned

    def summary(name, stack=(), bindings=None):
        key = (name, tuple(sorted((bindings or {}).items(), key=repr)))
        if key in memo:
            return memo[key]
        if name in stack or name not in meths:
            return set(), set()
        # (a parameter the method assigns itself is not a constant)
        reassigned = {t.id for st_ in ast.walk(meths[name][0]) if isinstance(st_, (ast.Assign, ast.AugAssign))
                      for t in (st_.targets if isinstance(st_, ast.Assign) else [st_.target]) if isinstance(t, ast.Name)}
        prev, prev_c = cur_method[0], consts[0]
        cur_method[0] = name
        consts[0] = {k_: v_ for k_, v_ in (bindings or {}).items() if k_ not in reassigned}
        try:
            res = flow(meths[name][0].body, set(), stack + (name,))
        finally:
            cur_method[0] = prev
            consts[0] = prev_c
        memo[key] = res
        return res

    def needs(name):
        return summary(name)[0]

    bad = sorted(a for a in needs(entry) if not is_config(a))
    g.check(f"{label}: every attribute read is configuration or assigned in this call before its first read",
            not bad, {"attributes_carrying_state_between_calls": bad,
                      "why": "read (possibly in a method called through self) before being assigned in "
                             f"{entry}(), and not plain construction-time configuration"})


# ------------------------------------------------------------------------------------------------

def _uses_of(name, node):
    return [n for n in ast.walk(node) if isinstance(n, ast.Name) and n.id == name]


def is_pure_function(fn_node, resolve=None, depth=0):
    """no attribute/subscript stores, no mutator calls, no global; self.m() callees pure as well"""
    for n in ast.walk(fn_node):
        if isinstance(n, (ast.Assign, ast.AugAssign, ast.AnnAssign)):
            targets = n.targets if isinstance(n, ast.Assign) else [n.target]
            for t in targets:
                for x in ast.walk(t):
                    if isinstance(x, (ast.Attribute, ast.Subscript)) and isinstance(x.ctx, ast.Store):
                        return False, f"store at line {x.lineno}"
        if isinstance(n, ast.Delete) or isinstance(n, ast.Global):
            return False, f"del/global at line {n.lineno}"
        if isinstance(n, ast.Call) and isinstance(n.func, ast.Attribute) and n.func.attr in MUTATORS:
            # a mutator on a local freshly created container is fine
            base = n.func.value
            if isinstance(base, ast.Name) and _is_fresh_local(base.id, fn_node):
                continue
            return False, f"call of .{n.func.attr}() at line {n.lineno}"
    return True, ""


def _is_fresh_local(name, fn_node):
    for n in ast.walk(fn_node):
        if isinstance(n, ast.Assign) and any(isinstance(t, ast.Name) and t.id == name for t in n.targets):
            v = n.value
            if isinstance(v, (ast.List, ast.Dict, ast.Set, ast.ListComp, ast.DictComp, ast.Constant, ast.JoinedStr)):
                continue
            if isinstance(v, ast.Call) and isinstance(v.func, ast.Name) and v.func.id in (
                    "list", "dict", "set", "CaptionList", "sorted", "deepcopy", "_OrderedSet", "defaultdict"):
                continue
            return False
    return True


PURE_SET_METHODS = ("is_empty", "get_languages", "get_captions", "get_styles", "get_style", "get_layout_info")


def input_copied(cls, method, param, g, pure_methods_of=None):
    """the writer's input parameter is deep-copied before anything impure can touch it.

    Every occurrence of the parameter in the method (up to the point where the parameter itself is rebound to a
    copy) must be one of:  the argument of `deepcopy(...)`;  the first argument of a *copying helper* - a method of
    the class or a function of its module in which every occurrence of the corresponding parameter is again of
    one of these kinds (checked recursively);  the receiver of a `CaptionSet` method proved pure.  Which name the
    copy is bound to, and whether the copying is done in place or in a helper, does not matter."""
    label = f"{cls.__name__}.{method}({param})"
    meths = methods_of(cls)
    fn, owner = meths[method]
    from pycaption.base import CaptionSet
    cs_methods = methods_of(CaptionSet)
    mod_tree = module_ast_of(sys.modules[owner.__module__])
    mod_funcs = {st.name: st for st in mod_tree.body if isinstance(st, ast.FunctionDef)}
    problems = []
    saw_copy = [False]

    def parent_map(root):
        pm = {}
        for n in ast.walk(root):
            for ch in ast.iter_child_nodes(n):
                pm[ch] = n
        return pm

    def resolve(call, enclosing_fn, kw_name=None):
        """the FunctionDef a call refers to (method of the class / function of the module) and the name of the
        parameter that receives the first positional argument; None if unknown"""
        f = call.func
        target = None
        if isinstance(f, ast.Name) and f.id in mod_funcs:
            target = mod_funcs[f.id]
            params = [a.arg for a in target.args.args]
        elif isinstance(f, ast.Name) and _imported_repo_function(sys.modules[owner.__module__], f.id) is not None:
            target = _imported_repo_function(sys.modules[owner.__module__], f.id)
            params = [a.arg for a in target.args.args]
        elif isinstance(f, ast.Attribute) and isinstance(f.value, ast.Name) and f.attr in meths and \
                f.value.id in (self_name(enclosing_fn), "self", "cls", cls.__name__, owner.__name__):
            target = meths[f.attr][0]
            static = any((isinstance(d, ast.Name) and d.id == "staticmethod") for d in target.decorator_list)
            params = [a.arg for a in target.args.args][0 if static else 1:]
        if target is None or not params:
            return None
        if kw_name is not None:
            return (target, kw_name) if kw_name in params else None
        return target, params[0]

    def classify(func_node, pname, depth=0):
        """problems with the occurrences of pname in func_node; True in saw_copy when a copy is taken"""
        out = []
        pm = parent_map(func_node)
        rebound_at = None
        for st in func_node.body:
            if rebound_at is not None:
                break
            for n in ast.walk(st):
                if not (isinstance(n, ast.Name) and n.id == pname):
                    continue
                if isinstance(n.ctx, ast.Store):
                    continue
                par = pm.get(n)
                # deepcopy(p) / copy.deepcopy(p)
                if isinstance(par, ast.Call) and par.args and par.args[0] is n and (
                        (isinstance(par.func, ast.Name) and par.func.id == "deepcopy") or
                        (isinstance(par.func, ast.Attribute) and par.func.attr == "deepcopy"
                         and isinstance(par.func.value, ast.Name) and par.func.value.id in ("copy", "_copy"))):
                    saw_copy[0] = True
                    continue
                # helper(p, ...) with p as first positional argument, or helper(name=p) by keyword
                if isinstance(par, ast.keyword) and par.value is n and isinstance(pm.get(par), ast.Call) and par.arg and depth < 4:
                    r = resolve(pm[par], func_node, kw_name=par.arg)
                    if r is not None:
                        sub = classify(r[0], r[1], depth + 1)
                        if not sub:
                            continue
                        out.append(f"line {n.lineno}: {pname} passed to {r[0].name}, which may touch it: {sub[0]}")
                        continue
                if isinstance(par, ast.Call) and par.args and par.args[0] is n and depth < 4:
                    r = resolve(par, func_node)
                    if r is not None:
                        sub = classify(r[0], r[1], depth + 1)
                        if not sub:
                            continue
                        out.append(f"line {n.lineno}: {pname} passed to {r[0].name}, which may touch it: {sub[0]}")
                        continue
                # p.pure_method(...)
                if isinstance(par, ast.Attribute) and par.value is n and isinstance(pm.get(par), ast.Call) and pm[par].func is par:
                    mname = par.attr
                    if mname in PURE_SET_METHODS and mname in cs_methods:
                        ok, why = is_pure_function(cs_methods[mname][0])
                        if ok:
                            continue
                        out.append(f"CaptionSet.{mname} is not pure: {why}")
                        continue
                    out.append(f"line {n.lineno}: {pname}.{mname}() on the original is not a known pure method")
                    continue
                out.append(f"line {n.lineno}: {pname} used other than to copy it")
            # p = <copy of p>: from here on the name denotes the copy
            if isinstance(st, ast.Assign) and len(st.targets) == 1 and isinstance(st.targets[0], ast.Name) \
                    and st.targets[0].id == pname and not out:
                rebound_at = st
        return out
    problems = classify(fn, param)
    if not saw_copy[0] and not problems:
        # no copy anywhere: then the parameter is only read through pure methods - or nothing is known
        ok, why = _whole_method_pure(cls, method)
        g.check(f"{label}: input deep-copied before any impure use", ok,
                {"no_deepcopy": True, "and_the_method_is_not_pure": why})
        return
    if not saw_copy[0]:
        ok, why = _whole_method_pure(cls, method)
        g.check(f"{label}: input deep-copied before any impure use", ok,
                {"no_deepcopy": True, "and_the_method_is_not_pure": why, "problems": problems[:6]})
        return
    g.check(f"{label}: input deep-copied before any impure use", not problems, {"problems": problems[:6]})


def _imported_repo_function(module, name):
    """the FunctionDef of a plain function of another repository module that `module` imported under `name`"""
    import inspect
    import types
    obj = getattr(module, name, None)
    if not isinstance(obj, types.FunctionType) or not (obj.__module__ or "").startswith("pycaption"):
        return None
    try:
        tree = module_ast_of(sys.modules[obj.__module__])
    except Exception:
        return None
    for st in tree.body:
        if isinstance(st, ast.FunctionDef) and st.name == obj.__name__:
            return st
    return None


def _first_statement_copies(fn, param):
    for st in fn.body:
        if isinstance(st, ast.Expr) and isinstance(st.value, ast.Constant):
            continue
        return (isinstance(st, ast.Assign) and len(st.targets) == 1 and isinstance(st.targets[0], ast.Name)
                and st.targets[0].id == param and isinstance(st.value, ast.Call)
                and isinstance(st.value.func, ast.Name) and st.value.func.id == "deepcopy"
                and len(st.value.args) == 1 and isinstance(st.value.args[0], ast.Name)
                and st.value.args[0].id == param)
    return False


def _parent_call(root, name_node):
    """if name_node occurs as  <name>.<m>(...)  return m, else None"""
    for n in ast.walk(root):
        if isinstance(n, ast.Call) and isinstance(n.func, ast.Attribute) and n.func.value is name_node:
            return n.func.attr
    return None


def _whole_method_pure(cls, method, seen=None):
    seen = seen or set()
    meths = methods_of(cls)
    if method in seen or method not in meths:
        return True, ""
    seen.add(method)
    fn = meths[method][0]
    ok, why = is_pure_function(fn)
    if not ok:
        return False, f"{cls.__name__}.{method}: {why}"
    for n in ast.walk(fn):
        if isinstance(n, ast.Call) and isinstance(n.func, ast.Attribute) and isinstance(n.func.value, ast.Name) \
                and n.func.value.id == self_name(fn) and n.func.attr in meths:
            ok, why = _whole_method_pure(cls, n.func.attr, seen)
            if not ok:
                return False, why
    return True, ""


# ------------------------------------------------------------------------------------------------

def _is_view_call(v):
    """d.keys() / d.items(): set-like views - their & | - ^ combinations are sets"""
    return isinstance(v, ast.Call) and isinstance(v.func, ast.Attribute) and v.func.attr in ("keys", "items") and not v.args


def _is_set_expr(v):
    if isinstance(v, (ast.Set, ast.SetComp)):
        return True
    if isinstance(v, ast.Call) and isinstance(v.func, ast.Name) and v.func.id in ("set", "frozenset"):
        return True
    if isinstance(v, ast.Call) and isinstance(v.func, ast.Attribute) and \
            v.func.attr in ("union", "intersection", "difference", "symmetric_difference") and \
            (_is_set_expr(v.func.value) or _is_view_call(v.func.value)):
        return True
    if isinstance(v, ast.BinOp) and isinstance(v.op, (ast.BitAnd, ast.BitOr, ast.Sub, ast.BitXor)):
        sides = (v.left, v.right)
        if any(_is_set_expr(x) for x in sides) or any(_is_view_call(x) for x in sides):
            return True
    return False


def no_hash_order(tree, g, label):
    """see module docstring"""
    problems = []
    parents = {}
    for n in ast.walk(tree):
        for ch in ast.iter_child_nodes(n):
            parents[ch] = n
    # direct iteration over a set expression
    for n in ast.walk(tree):
        it = None
        if isinstance(n, ast.For):
            it = n.iter
        elif isinstance(n, ast.comprehension):
            it = n.iter
        if it is not None and _is_set_expr(it):
            problems.append(f"line {it.lineno}: iteration over a set expression")
    # a set expression handed to something that takes its elements in order: list(set(x)), tuple(...), ''.join(...), [*set(x)]
    for n in ast.walk(tree):
        if not _is_set_expr(n):
            continue
        par = parents.get(n)
        if isinstance(par, ast.Starred):
            problems.append(f"line {n.lineno}: a set expression is unpacked in order")
        elif isinstance(par, ast.Call) and n in par.args:
            fname = par.func.id if isinstance(par.func, ast.Name) else getattr(par.func, "attr", None)
            if fname not in ("len", "sorted", "bool", "any", "all", "sum", "min", "max", "frozenset", "set", "isinstance") \
                    and fname not in SET_OK_METHODS:
                problems.append(f"line {n.lineno}: a set expression is passed to {fname}(): its iteration order would depend on the hash seed")
    # names / attributes bound to sets
    setvars = set()
    for n in ast.walk(tree):
        if isinstance(n, ast.Assign) and _is_set_expr(n.value):
            for t in n.targets:
                if isinstance(t, ast.Name):
                    setvars.add(("name", t.id))
                elif isinstance(t, ast.Attribute):
                    setvars.add(("attr", t.attr))
    for n in ast.walk(tree):
        key = None
        if isinstance(n, ast.Name) and isinstance(n.ctx, ast.Load) and ("name", n.id) in setvars:
            key = n.id
        elif isinstance(n, ast.Attribute) and isinstance(n.ctx, ast.Load) and ("attr", n.attr) in setvars:
            key = n.attr
        if key is None:
            continue
        par = parents.get(n)
        if isinstance(par, ast.Attribute) and par.value is n and par.attr in SET_OK_METHODS:
            continue
        if isinstance(par, ast.Compare) and n in par.comparators:
            continue            # x in S
        if isinstance(par, ast.Call) and isinstance(par.func, ast.Name) and par.func.id in ("len", "sorted", "bool") \
                and n in par.args:
            continue
        if isinstance(par, (ast.If, ast.While, ast.BoolOp, ast.UnaryOp)):
            continue
        if isinstance(par, ast.For) and par.iter is n and _at_most_one_element(par, key, parents):
            continue            # `if len(S) > 1: raise ...` right before: nothing to order
        if isinstance(par, ast.Call) and isinstance(par.func, ast.Name) and n in par.args and \
                par.func.id in ("any", "all", "sum", "min", "max", "frozenset", "set"):
            continue            # order-insensitive aggregates / another set
        if isinstance(par, ast.Attribute) and par.value is n:
            problems.append(f"line {n.lineno}: set {key!r} used through .{par.attr}")
            continue
        problems.append(f"line {n.lineno}: set {key!r} escapes ({type(par).__name__}): its iteration order would "
                        "depend on the hash seed")
    g.check(f"{label}: no iteration order taken from a set", not problems, {"problems": problems[:6]})


def _at_most_one_element(for_node, key, parents):
    """the loop `for x in S` is preceded, in the same block, by `if len(S) > 1: raise / return` (S not reassigned
    in between): S has at most one element, so there is no iteration order"""
    block_owner = parents.get(for_node)
    for field in ("body", "orelse", "finalbody"):
        block = getattr(block_owner, field, None)
        if isinstance(block, list) and for_node in block:
            before = block[:block.index(for_node)]
            for st in reversed(before):
                if any(isinstance(x, (ast.Assign, ast.AugAssign)) and any(
                        (isinstance(t, ast.Name) and t.id == key) or (isinstance(t, ast.Attribute) and t.attr == key)
                        for t in (x.targets if isinstance(x, ast.Assign) else [x.target])) for x in ast.walk(st)):
                    return False
                if isinstance(st, ast.If) and isinstance(st.test, ast.Compare) and len(st.test.ops) == 1 \
                        and isinstance(st.test.left, ast.Call) and isinstance(st.test.left.func, ast.Name) \
                        and st.test.left.func.id == "len" and st.test.left.args \
                        and (getattr(st.test.left.args[0], "id", None) == key or getattr(st.test.left.args[0], "attr", None) == key) \
                        and isinstance(st.test.comparators[0], ast.Constant) \
                        and ((isinstance(st.test.ops[0], ast.Gt) and st.test.comparators[0].value == 1)
                             or (isinstance(st.test.ops[0], ast.GtE) and st.test.comparators[0].value == 2)) \
                        and st.body and isinstance(st.body[-1], (ast.Raise, ast.Return)):
                    return True
    return False


STATEFUL_DECORATORS = {"lru_cache", "cache", "cached_property", "memoize", "memoized"}


def no_global_mutation(tree, g, label):
    problems = []
    # a module-level generator / iterator is consumed by its first user: later calls see something else
    for st in tree.body:
        if isinstance(st, ast.Assign) and (isinstance(st.value, ast.GeneratorExp) or (
                isinstance(st.value, ast.Call) and isinstance(st.value.func, ast.Name) and st.value.func.id in ("iter", "map", "filter", "zip"))):
            problems.append(f"line {st.lineno}: module-level one-shot iterator {[getattr(t, 'id', '?') for t in st.targets]}")
        if isinstance(st, ast.ClassDef):
            for s2 in st.body:
                if isinstance(s2, ast.Assign) and isinstance(s2.value, ast.GeneratorExp):
                    problems.append(f"line {s2.lineno}: class-level one-shot iterator in {st.name}")
    # memoising decorators keep results (often mutable objects) alive across calls
    for fn in [n for n in ast.walk(tree) if isinstance(n, (ast.FunctionDef, ast.AsyncFunctionDef))]:
        if len(fn.body) == 1 and isinstance(fn.body[0], ast.Pass):
            continue            # (pruned: not reachable from the property's entry points)
        for d in fn.decorator_list:
            target = d.func if isinstance(d, ast.Call) else d
            nm = target.id if isinstance(target, ast.Name) else getattr(target, "attr", None)
            if nm in STATEFUL_DECORATORS:
                problems.append(f"{fn.name} line {fn.lineno}: results memoised across calls by @{nm}")
    module_mutables = set()
    for st in tree.body:
        if isinstance(st, ast.Assign) and isinstance(st.value, (ast.Dict, ast.List, ast.Set, ast.Call, ast.DictComp,
                                                                  ast.ListComp)):
            for t in st.targets:
                if isinstance(t, ast.Name):
                    module_mutables.add(t.id)
    class_mutables = {}
    for st in tree.body:
        if isinstance(st, ast.ClassDef):
            for s2 in st.body:
                if isinstance(s2, ast.Assign) and isinstance(s2.value, (ast.Dict, ast.List, ast.Set)):
                    for t in s2.targets:
                        if isinstance(t, ast.Name):
                            class_mutables.setdefault(st.name, set()).add(t.id)
    class_names = {st.name for st in tree.body if isinstance(st, ast.ClassDef)}
    for fn in [n for n in ast.walk(tree) if isinstance(n, ast.FunctionDef)]:
        local = {a.arg for a in fn.args.args + fn.args.kwonlyargs}
        for n in ast.walk(fn):
            if isinstance(n, ast.Assign):
                for t in n.targets:
                    if isinstance(t, ast.Name):
                        local.add(t.id)
        for n in ast.walk(fn):
            base = None
            if isinstance(n, ast.Subscript) and isinstance(n.ctx, (ast.Store, ast.Del)):
                base = n.value
            elif isinstance(n, ast.Call) and isinstance(n.func, ast.Attribute) and n.func.attr in MUTATORS:
                base = n.func.value
            elif isinstance(n, ast.Global):
                problems.append(f"{fn.name} line {n.lineno}: global statement")
            elif isinstance(n, (ast.Assign, ast.AugAssign, ast.AnnAssign)):
                # an attribute of the CLASS assigned from inside a function outlives the call and the object:
                # type(self).x = ..., self.__class__.x = ..., cls.x = ..., ClassName.x = ...
                for t in (n.targets if isinstance(n, ast.Assign) else [n.target]):
                    if not isinstance(t, ast.Attribute):
                        continue
                    v = t.value
                    on_class = (isinstance(v, ast.Call) and isinstance(v.func, ast.Name) and v.func.id == "type") or \
                        (isinstance(v, ast.Attribute) and v.attr == "__class__") or \
                        (isinstance(v, ast.Name) and (v.id == "cls" or v.id in class_names) and v.id not in local - {"cls"})
                    if on_class:
                        problems.append(f"{fn.name} line {n.lineno}: assigns the class attribute {t.attr} (state shared by every object and call)")
            if base is None:
                continue
            if isinstance(base, ast.Name) and base.id in module_mutables and base.id not in local:
                problems.append(f"{fn.name} line {n.lineno}: mutates module-level {base.id}")
            if isinstance(base, ast.Attribute) and isinstance(base.value, ast.Name):
                for cname, attrs in class_mutables.items():
                    if base.attr in attrs and base.value.id in ("self", "cls", cname):
                        problems.append(f"{fn.name} line {n.lineno}: mutates class-level {cname}.{base.attr}")
    # an attribute of an IMPORTED object (a third-party module, its preference / registry objects) assigned, or such an
    # object mutated, from inside a function: state of the whole process, which outlives the call and the reader / writer
    imported = set()
    for st in tree.body:
        if isinstance(st, (ast.Import, ast.ImportFrom)):
            for al in st.names:
                imported.add((al.asname or al.name).split(".")[0])
    for fn in [n for n in ast.walk(tree) if isinstance(n, ast.FunctionDef)]:
        local = {a.arg for a in fn.args.args + fn.args.kwonlyargs}
        for n in ast.walk(fn):
            if isinstance(n, ast.Name) and isinstance(n.ctx, ast.Store):
                local.add(n.id)

        def root(e):
            while isinstance(e, (ast.Attribute, ast.Subscript)):
                e = e.value
            return e.id if isinstance(e, ast.Name) else None
        for n in ast.walk(fn):
            tgts = []
            if isinstance(n, (ast.Assign, ast.AugAssign, ast.AnnAssign)):
                tgts = [t for t in (n.targets if isinstance(n, ast.Assign) else [n.target]) if isinstance(t, (ast.Attribute, ast.Subscript))]
            elif isinstance(n, ast.Delete):
                tgts = [t for t in n.targets if isinstance(t, (ast.Attribute, ast.Subscript))]
            elif isinstance(n, ast.Call) and isinstance(n.func, ast.Name) and n.func.id == "setattr" and n.args:
                tgts = [ast.Attribute(value=n.args[0], attr="?", ctx=ast.Store())]
            for t in tgts:
                r = root(t.value)
                if r in imported and r not in local:
                    problems.append(f"{fn.name} line {n.lineno}: assigns state of the imported object {r} (process-wide)")
    g.check(f"{label}: no function mutates module-level or class-level containers", not problems,
            {"problems": problems[:6]})


def no_mutable_defaults(tree, g, label):
    problems = []
    for fn in [n for n in ast.walk(tree) if isinstance(n, (ast.FunctionDef, ast.Lambda))]:
        for d in list(fn.args.defaults) + [d for d in fn.args.kw_defaults if d is not None]:
            if isinstance(d, (ast.Dict, ast.List, ast.Set)) or _is_set_expr(d) or (
                    isinstance(d, ast.Call) and isinstance(d.func, ast.Name) and d.func.id in ("dict", "list")):
                problems.append(f"{getattr(fn, 'name', '<lambda>')} line {d.lineno}: mutable default argument")
    g.check(f"{label}: no mutable default arguments", not problems, {"problems": problems[:6]})


# ---------------------------------------------------------------------------------------------
# scoping: the part of the modules that the entry points can reach (by name, over-approximated)

def reachable_trees(trees, entries):
    """trees: {module name: ast.Module}; entries: iterable of (class name or None, function name).
    Returns pruned copies of the trees in which the body of every function / method that the entry
    points cannot reach is replaced by `pass`.  Reachability is by NAME and over-approximated:
      * every identifier loaded (ast.Name) and every attribute name accessed (ast.Attribute) in a
        reachable function reaches all functions / methods of that name in all given modules;
      * a class whose name is mentioned makes its dunder methods reachable - and ALL its methods when it
        extends a class from outside the repository (callbacks invoked by library code such as
        html.parser) -, and so do its base classes and every subclass of a reachable class;
      * module-level and class-level statements are always kept (they run at import).
    So a function is dropped only if no reachable code mentions its name or its class."""
    import copy
    funcs = {}          # simple name -> [(module, class or None, node)]
    classes = {}        # class name -> [(module, node)]
    for m, tree in trees.items():
        for st in tree.body:
            if isinstance(st, ast.FunctionDef):
                funcs.setdefault(st.name, []).append((m, None, st))
            elif isinstance(st, ast.ClassDef):
                classes.setdefault(st.name, []).append((m, st))
                for s2 in st.body:
                    if isinstance(s2, ast.FunctionDef):
                        funcs.setdefault(s2.name, []).append((m, st.name, s2))
    reached_fn, reached_cls, work = set(), set(), []

    def reach_fn(node):
        if id(node) not in reached_fn:
            reached_fn.add(id(node))
            work.append(node)

    def reach_cls(name):
        if name in reached_cls or name not in classes:
            return
        reached_cls.add(name)
        for m, cnode in classes[name]:
            # library code can call back any method of a class that extends a library class
            external_base = any(isinstance(n, (ast.Name, ast.Attribute)) and
                                (n.id if isinstance(n, ast.Name) else n.attr) not in classes and
                                (n.id if isinstance(n, ast.Name) else n.attr) != "object"
                                for b in cnode.bases for n in [b])
            for s2 in cnode.body:
                if isinstance(s2, ast.FunctionDef):
                    if external_base or (s2.name.startswith("__") and s2.name.endswith("__")):
                        reach_fn(s2)
                else:
                    work.append(s2)                      # class-level statements mention names too
            for b in cnode.bases:
                for n in ast.walk(b):
                    if isinstance(n, ast.Name):
                        reach_cls(n.id)
        # subclasses (dynamic dispatch on a reachable base)
        for cname, defs in classes.items():
            for m, cnode in defs:
                if any(isinstance(n, ast.Name) and n.id == name for b in cnode.bases for n in ast.walk(b)):
                    reach_cls(cname)

    for cname, fname in entries:
        if cname is not None:
            reach_cls(cname)
        for m, c, node in funcs.get(fname, []):
            if cname is None or c == cname:
                reach_fn(node)
    # names mentioned by module-level statements do not make anything reachable per call: those
    # statements run once at import and are always kept in the pruned tree
    while work:
        node = work.pop()
        for n in ast.walk(node):
            name = None
            if isinstance(n, ast.Name):
                name = n.id
            elif isinstance(n, ast.Attribute):
                name = n.attr
            if name is None:
                continue
            reach_cls(name)
            for m, c, fnode in funcs.get(name, []):
                reach_fn(fnode)
    out, dropped = {}, []
    for m, tree in trees.items():
        t2 = copy.deepcopy(tree)
        # walk original and copy in parallel to map identities
        for orig, cp in zip(ast.walk(tree), ast.walk(t2)):
            if isinstance(orig, ast.FunctionDef) and id(orig) not in reached_fn and _is_top_level_def(tree, orig):
                cp.body = [ast.Pass(lineno=orig.lineno, col_offset=orig.col_offset)]
                cp.args.defaults, cp.args.kw_defaults = cp.args.defaults, cp.args.kw_defaults
                dropped.append(f"{m}:{orig.name}")
        out[m] = t2
    return out, sorted(dropped)


def _is_top_level_def(tree, fn):
    for st in tree.body:
        if st is fn:
            return True
        if isinstance(st, ast.ClassDef) and any(s2 is fn for s2 in st.body):
            return True
    return False
