"""Independent reference parsers of the five text formats, written from the format grammars
(never importing pycaption).  Each returns a list of cues:  dict(start=<us>, end=<us or None>,
lines=[str, ...]) in document order (per language for SAMI / DFXP).  They are *strict* where the
property needs strictness (XML well-formedness, blank line = end of cue)."""
import html
import re
import xml.etree.ElementTree as ET
from fractions import Fraction
from html.parser import HTMLParser

US = 10 ** 6


class FormatError(Exception):
    pass


def _hms(h, m, s, ms):
    return ((int(h) * 60 + int(m)) * 60 + int(s)) * US + int(ms) * 1000


# ------------------------------------------------------------------------------------------- SRT

_SRT_TIME = re.compile(r"^(\d+):(\d{2}):(\d{2}),(\d{3}) --> (\d+):(\d{2}):(\d{2}),(\d{3})\s*$")


def parse_srt(doc):
    """SRT block grammar: blocks separated by one or more blank lines (a line with only whitespace
    counts as blank, as the common players treat it); block = index line, timing line, text lines."""
    cues = []
    block = []
    for line in doc.split("\n") + [""]:
        if line.strip() == "":
            if block:
                cues.append(block)
                block = []
        else:
            block.append(line)
    out = []
    for i, b in enumerate(cues):
        if len(b) < 2 or not b[0].strip().isdigit():
            raise FormatError(f"block {i}: no index line: {b!r}")
        m = _SRT_TIME.match(b[1])
        if not m:
            raise FormatError(f"block {i}: bad timing line {b[1]!r}")
        g = m.groups()
        out.append({"start": _hms(*g[:4]), "end": _hms(*g[4:]), "lines": [x.strip() for x in b[2:]],
                    "index": int(b[0])})
    return out


# ---------------------------------------------------------------------------------------- WebVTT

_VTT_TS = r"(?:(\d{2,}):)?(\d{2}):(\d{2})\.(\d{3})"
_VTT_TIMING = re.compile(r"^" + _VTT_TS + r"[ \t]+-->[ \t]+" + _VTT_TS + r"(?:[ \t]+(.*))?$")
_VTT_ENT = {"amp": "&", "lt": "<", "gt": ">", "nbsp": " ", "lrm": "‎", "rlm": "‏"}


def vtt_unescape(s):
    def rep(m):
        n = m.group(1)
        if n in _VTT_ENT:
            return _VTT_ENT[n]
        if n.startswith("#x") or n.startswith("#X"):
            return chr(int(n[2:], 16))
        if n.startswith("#"):
            return chr(int(n[1:]))
        return m.group(0)
    return re.sub(r"&(#[xX][0-9a-fA-F]+|#\d+|\w+);", rep, s)


def vtt_strip_tags(s):
    """cue text tokenizer: tags are <...>; returns (text-without-tags, [tag names in order])"""
    tags = []

    def rep(m):
        tags.append(m.group(1))
        return ""
    return re.sub(r"<(/?[^>\s.]*)[^>]*>", rep, s), tags


def parse_webvtt(doc):
    """WebVTT cue grammar: header block, then blocks separated by blank lines; a cue block is an
    optional identifier line, a timing line, and one or more payload lines; the payload ends at the
    first empty line; a payload line must not contain '-->'."""
    lines = doc.split("\n")
    if not lines or not lines[0].startswith("WEBVTT"):
        raise FormatError("missing WEBVTT signature")
    i = 1
    while i < len(lines) and lines[i] != "":
        i += 1
    cues = []
    while i < len(lines):
        while i < len(lines) and lines[i] == "":
            i += 1
        if i >= len(lines):
            break
        block = []
        while i < len(lines) and lines[i] != "":
            block.append(lines[i])
            i += 1
        if "-->" not in block[0] and len(block) > 1 and "-->" in block[1]:
            block = block[1:]
        if "-->" not in block[0]:
            if block[0].startswith(("NOTE", "STYLE", "REGION")):
                continue
            raise FormatError(f"stray block {block!r}")
        m = _VTT_TIMING.match(block[0])
        if not m:
            raise FormatError(f"bad timing line {block[0]!r}")
        g = m.groups()
        payload = block[1:]
        for pl in payload:
            if "-->" in pl:
                raise FormatError(f"'-->' inside cue payload: {pl!r}")
        texts, tags = [], []
        for pl in payload:
            t, tg = vtt_strip_tags(pl)
            texts.append(vtt_unescape(t))
            tags.append(tg)
        cues.append({"start": _hms(g[0] or 0, g[1], g[2], g[3]), "end": _hms(g[4] or 0, g[5], g[6], g[7]),
                     "settings": g[8] or "", "lines": [t.strip() for t in texts], "raw": payload, "tags": tags})
    return cues


# -------------------------------------------------------------------------------------- MicroDVD

_MDVD = re.compile(r"^\{(\d+)\}\{(\d+)\}(.*)$")


def parse_microdvd(doc, fps=Fraction(25)):
    cues = []
    for line in doc.split("\n"):
        if line == "":
            continue
        m = _MDVD.match(line)
        if not m:
            raise FormatError(f"bad MicroDVD line {line!r}")
        s, e, txt = m.groups()
        cues.append({"start_frame": int(s), "end_frame": int(e), "start": int(int(s) * US / fps),
                     "end": int(int(e) * US / fps), "lines": [x.strip() for x in txt.split("|")]})
    return cues


# ------------------------------------------------------------------------------------------ DFXP

TTML = "http://www.w3.org/ns/ttml"
TTS = "http://www.w3.org/ns/ttml#styling"
XMLNS = "http://www.w3.org/XML/1998/namespace"
_CLOCK = re.compile(r"^(\d+):(\d{2}):(\d{2})(?:\.(\d+))?$")


def ttml_time(s):
    m = _CLOCK.match(s)
    if not m:
        raise FormatError(f"bad TTML clock time {s!r}")
    h, mi, se, fr = m.groups()
    us = ((int(h) * 60 + int(mi)) * 60 + int(se)) * US
    if fr:
        us += int(Fraction(int(fr), 10 ** len(fr)) * US)
    return us


def _text_lines(elem, flags=None, out=None):
    """lines of a <p>: text with <br/> as line break; returns [(text, italic-flags per char)]"""
    lines = [""]

    def walk(e):
        if e.text:
            lines[-1] += e.text
        for ch in e:
            tag = ch.tag.split("}")[-1]
            if tag == "br":
                lines.append("")
            else:
                walk(ch)
            if ch.tail:
                lines[-1] += ch.tail
    walk(elem)
    return [" ".join(x.split()) for x in lines]


def parse_dfxp(doc):
    """strict XML 1.0 (expat), TTML namespace; returns {lang: [cues]} plus the document tree checks"""
    try:
        root = ET.fromstring(doc)
    except ET.ParseError as e:
        raise FormatError(f"not well-formed XML: {e}")
    if root.tag != f"{{{TTML}}}tt":
        raise FormatError(f"root is {root.tag}")
    res = {}
    order = []
    body = root.find(f"{{{TTML}}}body")
    divs = [] if body is None else body.findall(f"{{{TTML}}}div")
    for div in divs:
        lang = div.get(f"{{{XMLNS}}}lang")
        cues = []
        for p in div.findall(f"{{{TTML}}}p"):
            if p.get("begin") is None or p.get("end") is None:
                raise FormatError("p without begin/end")
            cues.append({"start": ttml_time(p.get("begin")), "end": ttml_time(p.get("end")),
                         "lines": _text_lines(p), "elem": p})
        res.setdefault(lang, []).extend(cues)
        order.append(lang)
    return {"root": root, "langs": order, "cues": res, "divs": divs}


def dfxp_reference_check(root):
    """ids unique; every style= / region= resolves to exactly one definition; every region is used"""
    problems = []
    ids = {}
    for e in root.iter():
        i = e.get(f"{{{XMLNS}}}id")
        if i is not None:
            ids.setdefault(i, []).append(e.tag.split("}")[-1])
    for i, tags in ids.items():
        if len(tags) > 1:
            problems.append(f"id {i!r} defined {len(tags)} times ({tags})")
    head = root.find(f"{{{TTML}}}head")
    styles, regions = {}, {}
    if head is not None:
        for st in head.iter(f"{{{TTML}}}style"):
            i = st.get(f"{{{XMLNS}}}id")
            if i is not None:
                styles.setdefault(i, 0)
                styles[i] += 1
        for rg in head.iter(f"{{{TTML}}}region"):
            i = rg.get(f"{{{XMLNS}}}id")
            regions.setdefault(i, 0)
            regions[i] += 1
    used_regions = set()
    body = root.find(f"{{{TTML}}}body")
    for e in (body.iter() if body is not None else []):
        s = e.get("style")
        if s is not None:
            for ref in s.split():
                if styles.get(ref, 0) != 1:
                    problems.append(f"style={ref!r} resolves to {styles.get(ref, 0)} definitions")
        r = e.get("region")
        if r is not None:
            used_regions.add(r)
            if regions.get(r, 0) != 1:
                problems.append(f"region={r!r} resolves to {regions.get(r, 0)} definitions")
    # references inside the head: a <style> chained to another one, a <region> that names a style
    for e in (head.iter() if head is not None else []):
        s = e.get("style")
        if s is not None:
            for ref in s.split():
                if styles.get(ref, 0) != 1:
                    problems.append(f"<{e.tag.split('}')[-1]} xml:id={e.get(f'{{{XMLNS}}}id')!r}> in the head has style={ref!r}, which resolves to {styles.get(ref, 0)} definitions")
    for r in regions:
        if r not in used_regions:
            problems.append(f"region {r!r} is defined but not referenced")
    return problems


# ------------------------------------------------------------------------------------------ SAMI

class _SamiParser(HTMLParser):
    def __init__(self):
        super().__init__(convert_charrefs=True)
        self.syncs = []          # (start_ms, [ (class, [lines]) ])
        self.in_p = False
        self.in_style = False
        self.style = ""
        self.depth = []

    def handle_starttag(self, tag, attrs):
        a = dict(attrs)
        if tag == "sync":
            try:
                self.syncs.append((int(a.get("start", "")), []))
            except ValueError:
                raise FormatError(f"sync start is not an integer: {a.get('start')!r}")
            self.in_p = False
        elif tag == "p":
            if not self.syncs:
                raise FormatError("p outside sync")
            self.syncs[-1][1].append([a.get("class"), [""]])
            self.in_p = True
        elif tag == "br" and self.in_p:
            self.syncs[-1][1][-1][1].append("")
        elif tag == "style":
            self.in_style = True

    def handle_startendtag(self, tag, attrs):
        self.handle_starttag(tag, attrs)

    def handle_endtag(self, tag):
        if tag == "p":
            self.in_p = False
        elif tag == "sync":
            self.in_p = False
        elif tag == "style":
            self.in_style = False

    def handle_data(self, data):
        if self.in_style:
            self.style += data
        elif self.in_p and self.syncs and self.syncs[-1][1]:
            self.syncs[-1][1][-1][1][-1] += data

    def handle_comment(self, data):
        if self.in_style:
            self.style += data


def parse_sami(doc):
    """HTML parse of a SAMI document: returns {'syncs': [start_ms...], 'cues': {class: [cue]}}.
    A paragraph whose text is only a non-breaking space is a blank (clears the language)."""
    p = _SamiParser()
    p.feed(doc)
    p.close()
    order = [s for s, _ in p.syncs]
    per = {}
    for sync_id, (start, ps) in enumerate(p.syncs):
        sync_id = ("sync", sync_id)
        for klass, lines in ps:
            text = [" ".join(x.replace(" ", " ").split()) for x in lines]
            blank = all(t == "" for t in text)
            lst = per.setdefault(klass, [])
            if lst and lst[-1]["end"] is None and lst[-1]["sync"] is not sync_id:
                # a cue lasts until the next SYNC block that has a paragraph of its class
                lst[-1]["end"] = start * 1000
            if not blank:
                lst.append({"start": start * 1000, "end": None, "lines": text, "sync": sync_id})
    return {"syncs": order, "cues": per, "style": p.style}
