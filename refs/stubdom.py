"""A minimal DOM standing in for BeautifulSoup in symbolic runs: the *assumed contract* (A) of the
bs4 calls the writers make - new_tag stores its attributes as given, tag[...] / tag.attrs are the
attribute dict, append / insert_after / insert_before place children in order, find / find_all
return tags in document order by name and attribute equality.  Attribute values may be symbolic."""


class StubTag:
    def __init__(self, name, attrs=None):
        self.name = name
        self.attrs = dict(attrs or {})
        self.children = []
        self.parent = None
        self.string = None

    def __setitem__(self, k, v):
        self.attrs[k] = v

    def __getitem__(self, k):
        return self.attrs[k]

    def get(self, k, default=None):
        return self.attrs.get(k, default)

    def append(self, child):
        if isinstance(child, StubTag):
            child.parent = self
        self.children.append(child)

    def insert_after(self, new):
        i = self.parent.children.index(self)
        self.parent.children.insert(i + 1, new)
        new.parent = self.parent

    def insert_before(self, new):
        i = self.parent.children.index(self)
        self.parent.children.insert(i, new)
        new.parent = self.parent

    def descendants(self):
        for c in self.children:
            if isinstance(c, StubTag):
                yield c
                yield from c.descendants()

    def find_all(self, name, attrs=None, **kw):
        want = dict(attrs or {})
        want.update(kw)
        out = []
        for t in self.descendants():
            if t.name != name:
                continue
            ok = True
            for k, v in want.items():
                have = t.attrs.get(k)
                if callable(v):
                    ok = ok and have is not None and bool(v(have))
                else:
                    ok = ok and have is not None and bool(have == v)
            if ok:
                out.append(t)
        return out

    def find(self, name, attrs=None, **kw):
        r = self.find_all(name, attrs, **kw)
        return r[0] if r else None

    def __eq__(self, other):
        return isinstance(other, StubTag) and self.name == other.name and self.attrs == other.attrs \
            and self.children == other.children and self.string == other.string

    def __ne__(self, other):
        return not self.__eq__(other)

    __hash__ = object.__hash__

    def __repr__(self):
        return f"<{self.name} {self.attrs}>"


class StubSoup(StubTag):
    def __init__(self, skeleton=("tt", ("head", ("styling",), ("layout",)), ("body",))):
        super().__init__("[document]")

        def build(spec, parent):
            t = StubTag(spec[0])
            parent.append(t)
            for sub in spec[1:]:
                build(sub, t)
        build(skeleton, self)

    def new_tag(self, name, **attrs):
        return StubTag(name, attrs)

    def prettify(self, *a, **kw):
        return ("serialised", self)

    @property
    def body(self):
        return self.find("body")
