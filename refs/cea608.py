"""CEA-608 (line 21, channel 1) tables, an SCC encoder and a reference pop-on decoder, written
from the standard's code tables (ANSI/CTA-608-E section 6) - never importing pycaption."""

# ---------------------------------------------------------------------------------- parity / words


def odd_parity(b7):
    """7-bit value -> byte with the eighth bit set so that the number of 1 bits is odd"""
    b7 &= 0x7F
    return b7 | (0x80 if bin(b7).count("1") % 2 == 0 else 0)


def has_odd_parity(byte):
    return bin(byte & 0xFF).count("1") % 2 == 1


def word(b1, b2):
    return f"{odd_parity(b1):02x}{odd_parity(b2):02x}"


# ---------------------------------------------------------------------------------- character sets

BASIC_EXCEPTIONS = {0x2A: "á", 0x5C: "é", 0x5E: "í", 0x5F: "ó", 0x60: "ú", 0x7B: "ç", 0x7C: "÷",
                    0x7D: "Ñ", 0x7E: "ñ", 0x7F: "█"}
BASIC = {c: BASIC_EXCEPTIONS.get(c, chr(c)) for c in range(0x20, 0x80)}
BASIC_CODE = {ch: c for c, ch in BASIC.items()}

SPECIAL = dict(zip(range(0x30, 0x40), ["®", "°", "½", "¿", "™", "¢", "£", "♪", "à", " ", "è", "â", "ê", "î", "ô", "û"]))
# extended western european character sets: first byte 0x12 (Spanish/French/misc) and 0x13 (Portuguese/German/Danish)
EXT_12 = dict(zip(range(0x20, 0x40), ["Á", "É", "Ó", "Ú", "Ü", "ü", "‘", "¡", "*", "’", "—", "©", "℠", "•", "“", "”",
                                      "À", "Â", "Ç", "È", "Ê", "Ë", "ë", "Î", "Ï", "ï", "Ô", "Ù", "ù", "Û", "«", "»"]))
EXT_13 = dict(zip(range(0x20, 0x40), ["Ã", "ã", "Í", "Ì", "ì", "Ò", "ò", "Õ", "õ", "{", "}", "\\", "^", "_", "¦", "~",
                                      "Ä", "ä", "Ö", "ö", "ß", "¥", "¤", "│", "Å", "å", "Ø", "ø", "┌", "┐", "└", "┘"]))

# ---------------------------------------------------------------------------------- control codes

CTRL = {"RCL": (0x14, 0x20), "BS": (0x14, 0x21), "DER": (0x14, 0x24), "RU2": (0x14, 0x25), "RU3": (0x14, 0x26),
        "RU4": (0x14, 0x27), "FON": (0x14, 0x28), "RDC": (0x14, 0x29), "EDM": (0x14, 0x2C), "CR": (0x14, 0x2D),
        "ENM": (0x14, 0x2E), "EOC": (0x14, 0x2F), "TO1": (0x17, 0x21), "TO2": (0x17, 0x22), "TO3": (0x17, 0x23)}
PAC_ROW = {1: (0x11, 0x40), 2: (0x11, 0x60), 3: (0x12, 0x40), 4: (0x12, 0x60), 5: (0x15, 0x40), 6: (0x15, 0x60),
           7: (0x16, 0x40), 8: (0x16, 0x60), 9: (0x17, 0x40), 10: (0x17, 0x60), 11: (0x10, 0x40), 12: (0x13, 0x40),
           13: (0x13, 0x60), 14: (0x14, 0x40), 15: (0x14, 0x60)}


def ctrl(name):
    return word(*CTRL[name])


def pac(row, col=0, italics=False, underline=False):
    """preamble address code: row 1-15, indent col in {0,4,...,28} (white) or white italics at col 0"""
    hi, base = PAC_ROW[row]
    if italics:
        low = base + 0x0E
    else:
        assert col % 4 == 0 and 0 <= col <= 28
        low = base + (0x10 + 2 * (col // 4) if col else 0x00)
    return word(hi, low + (1 if underline else 0))


def pac_decode(b1, b2):
    """(row, col, italics) of a PAC given as 7-bit bytes, or None"""
    for row, (hi, base) in PAC_ROW.items():
        if b1 == hi and base <= b2 < base + 0x20:
            attr = (b2 - base) & 0x1E
            if attr >= 0x10:
                return row, (attr - 0x10) * 2, False
            return row, 0, attr == 0x0E
    return None


def midrow(italics=False, underline=False):
    return word(0x11, (0x2E if italics else 0x20) + (1 if underline else 0))


def special(ch):
    c = next(k for k, v in SPECIAL.items() if v == ch)
    return word(0x11, c)


def extended(ch):
    for first, table in ((0x12, EXT_12), (0x13, EXT_13)):
        for k, v in table.items():
            if v == ch:
                return word(first, k)
    raise KeyError(ch)


def text_words(s):
    """basic characters two per word, padded with a null"""
    codes = [BASIC_CODE[ch] for ch in s]
    if len(codes) % 2:
        codes.append(0x00)
    out = []
    for i in range(0, len(codes), 2):
        out.append(f"{odd_parity(codes[i]):02x}{odd_parity(codes[i + 1]) if codes[i + 1] else 0x80:02x}")
    return out


def timecode(frames, drop=True):
    """frame count (30 fps nominal) -> HH:MM:SS;FF (drop-frame label = wall clock) or HH:MM:SS:FF"""
    f = frames % 30
    s = frames // 30
    return f"{s // 3600:02d}:{s // 60 % 60:02d}:{s % 60:02d}{';' if drop else ':'}{f:02d}"


HEADER = "Scenarist_SCC V1.0"


def scc_document(lines):
    """lines: [(timecode string, [words])]"""
    return HEADER + "\n\n" + "\n\n".join(f"{tc}\t{' '.join(ws)}" for tc, ws in lines) + "\n"


def doubled(words, is_control):
    out = []
    for w, c in zip(words, is_control):
        out.append(w)
        if c:
            out.append(w)
    return out


# ---------------------------------------------------------------------------------- reference decoder

class PopOnDecoder:
    """Minimal CEA-608 pop-on decoder: characters go to the non-displayed memory at the cursor;
    EOC swaps memories.  Returns, for each displayed caption, the rows {row: [(col, char, italic)]}
    together with the word index (0-based, within the whole stream) of the EOC that showed it and
    of the EDM/EOC that removed it."""

    def __init__(self):
        self.mem = {}            # row -> {col: (char, italic)}
        self.row, self.col, self.italic = 15, 0, False
        self.shown = []          # list of dict(rows=..., on=idx, off=idx or None)
        self.last = None

    def _put(self, ch):
        r = self.mem.setdefault(self.row, {})
        r[self.col] = (ch, self.italic)
        self.col = min(self.col + 1, 32)

    def feed(self, idx, b1, b2):
        w = (b1, b2)
        is_ctrl = 0x10 <= b1 <= 0x1F
        if is_ctrl and self.last == w:
            self.last = None          # second transmission of a doubled control pair: ignored
            return
        self.last = w if is_ctrl else None
        p = pac_decode(b1, b2) if is_ctrl else None
        if p:
            self.row, self.col, self.italic = p
            return
        if b1 == 0x11 and 0x20 <= b2 <= 0x2F:        # mid-row: one cell (a space), then the style
            self.italic = False if (b2 & 0x0E) != 0x0E else self.italic
            self._put(" ")
            self.italic = (b2 & 0x0E) == 0x0E
            return
        if b1 == 0x11 and 0x30 <= b2 <= 0x3F:
            self._put(SPECIAL[b2])
            return
        if b1 in (0x12, 0x13) and 0x20 <= b2 <= 0x3F:
            self.col = max(self.col - 1, 0)           # extended characters replace the previous cell
            ch = (EXT_12 if b1 == 0x12 else EXT_13)[b2]
            self._put({"│": "|"}.get(ch, ch))
            return
        if w == CTRL["BS"]:
            if self.col > 0:
                self.col -= 1
                self.mem.get(self.row, {}).pop(self.col, None)
            return
        if b1 == 0x17 and 0x21 <= b2 <= 0x23:
            self.col += b2 - 0x20
            return
        if w == CTRL["ENM"]:
            self.mem = {}
            return
        if w == CTRL["EDM"]:
            if self.shown and self.shown[-1]["off"] is None:
                self.shown[-1]["off"] = idx
            return
        if w == CTRL["EOC"]:
            if self.shown and self.shown[-1]["off"] is None:
                self.shown[-1]["off"] = idx
            if any(self.mem.values()):
                self.shown.append({"rows": {r: dict(c) for r, c in self.mem.items() if c}, "on": idx, "off": None})
            self.mem = {}
            return
        if is_ctrl:
            return
        for b in (b1, b2):
            if b >= 0x20:
                self._put(BASIC[b])


def row_text(cells):
    """text of a row: cells from the first to the last written column, gaps as spaces"""
    cols = sorted(cells)
    return "".join(cells[c][0] if c in cells else " " for c in range(cols[0], cols[-1] + 1))


def decode_words(words):
    d = PopOnDecoder()
    for i, w in enumerate(words):
        b1, b2 = int(w[:2], 16) & 0x7F, int(w[2:], 16) & 0x7F
        d.feed(i, b1, b2)
    return d.shown
